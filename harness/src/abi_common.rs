//! Shared by the c12 and c15 harness binaries (included with `#[path]`): signatures, argument values,
//! rendering to mapfile / script text and to Coq terms, driving compile and decompile in-process.
#![allow(dead_code)]
use std::collections::BTreeMap;
use std::fmt::Write as _;
use truth::ast;
use truth::llir::RawInstr;
use truth::{Game, LanguageKey};
use verif_harness::util::*;

pub fn z(i: i64) -> String { if i < 0 { format!("({})", i) } else { format!("{}", i) } }
pub fn b(x: bool) -> &'static str { if x { "true" } else { "false" } }
pub fn zlist<I: IntoIterator<Item = i64>>(xs: I) -> String {
    format!("[{}]", xs.into_iter().map(z).collect::<Vec<_>>().join(";"))
}
/// byte strings and code-point strings are written packed into one hexadecimal literal (long list literals are very slow to
/// parse in Coq): `le_bytes n 0x..` (Model/Abi.v) and `cps n 0x..` (Corr/C12.v, base 2^21), both little-endian
pub fn bytes_term(xs: &[u8]) -> String {
    if xs.len() <= 3 { return zlist(xs.iter().map(|&x| x as i64)); }
    let mut hex = String::new();
    for b in xs.iter().rev() { hex.push_str(&format!("{:02x}", b)); }
    format!("(le_bytes {}%nat 0x{})", xs.len(), hex)
}
pub fn str_term(s: &str) -> String {
    let cs: Vec<u32> = s.chars().map(|c| c as u32).collect();
    if cs.len() <= 3 { return zlist(cs.iter().map(|&x| x as i64)); }
    // 21 bits per code point, most significant (last) first; assembled as a bit string
    let mut bits = String::new();
    for c in cs.iter().rev() { bits.push_str(&format!("{:021b}", c)); }
    while bits.len() % 4 != 0 { bits.insert(0, '0'); }
    let mut hex = String::new();
    for k in (0..bits.len()).step_by(4) { hex.push_str(&format!("{:x}", u8::from_str_radix(&bits[k..k + 4], 2).unwrap())); }
    format!("(cps {}%nat 0x{})", cs.len(), hex)
}

// ---------------------------------------------------------------------------------------------
// signatures

#[derive(Clone, Debug, PartialEq)]
pub enum SSize { Fixed(u32, bool), Block(u32), Pascal(u32) }

#[derive(Clone, Debug, PartialEq)]
pub enum P {
    Int { c: char, imm: bool, arg0: bool, hex: bool },
    Float { imm: bool },
    Off, Time,
    Pad(char),
    Str { ch: char, sz: SSize, mask: [u8; 3], furibug: bool },
}

pub const INT_CHARS: [(char, u8, bool); 10] = [
    ('S', 4, true), ('s', 2, true), ('c', 1, true), ('U', 4, false), ('u', 2, false), ('b', 1, false),
    ('n', 4, true), ('N', 4, true), ('E', 4, true), ('C', 4, false),
];

impl P {
    pub fn is_pad(&self) -> bool { matches!(self, P::Pad(_)) }
    pub fn text(&self) -> String {
        match self {
            P::Int { c, imm, arg0, hex } => {
                let mut at = vec![];
                if *arg0 { at.push("arg0"); }
                if *imm { at.push("imm"); }
                if *hex { at.push("hex"); }
                if at.is_empty() { c.to_string() } else { format!("{}({})", c, at.join(";")) }
            },
            P::Float { imm } => if *imm { "f(imm)".into() } else { "f".into() },
            P::Off => "o".into(), P::Time => "t".into(),
            P::Pad(c) => c.to_string(),
            P::Str { ch, sz, mask, furibug } => {
                let mut at = vec![];
                match sz {
                    SSize::Fixed(len, nulless) => { at.push(format!("len={}", len)); if *nulless { at.push("nulless".into()); } },
                    SSize::Block(bs) | SSize::Pascal(bs) => at.push(format!("bs={}", bs)),
                }
                if *ch == 'm' || *mask != [0, 0, 0] { at.push(format!("mask={},{},{}", mask[0], mask[1], mask[2])); }
                if *furibug { at.push("furibug".into()); }
                format!("{}({})", ch, at.join(";"))
            },
        }
    }
    pub fn coq(&self) -> String {
        match self {
            P::Int { c, imm, arg0, .. } => format!("PInt {} {} {}", *c as u32, b(*imm), b(*arg0)),
            P::Float { imm } => format!("PFloat {}", b(*imm)),
            P::Off => "POff".into(), P::Time => "PTime".into(),
            P::Pad(c) => format!("PPad {}", *c as u32),
            P::Str { sz, mask, furibug, .. } => {
                let s = match sz {
                    SSize::Fixed(len, nulless) => format!("(SFixed {} {})", len, b(*nulless)),
                    SSize::Block(bs) => format!("(SBlock {})", bs),
                    SSize::Pascal(bs) => format!("(SPascal {})", bs),
                };
                format!("PStr {} {} {} {} {}", s, mask[0], mask[1], mask[2], b(*furibug))
            },
        }
    }
}
pub fn sig_text(ps: &[P]) -> String { ps.iter().map(|p| p.text()).collect::<Vec<_>>().join("") }
pub fn sig_coq(ps: &[P]) -> String { format!("[{}]", ps.iter().map(|p| p.coq()).collect::<Vec<_>>().join("; ")) }

// ---------------------------------------------------------------------------------------------
// argument values

#[derive(Clone, Debug, PartialEq)]
pub enum V { Int(i32), Float(u32), Str(String) }
#[derive(Clone, Debug, PartialEq)]
pub struct A { pub v: V, pub reg: bool }

pub fn float_src(bits: u32) -> String {
    let x = f32::from_bits(bits);
    if x.is_nan() { return "NAN".to_string(); }
    if x.is_infinite() { return if x > 0.0 { "INF".to_string() } else { "(-INF)".to_string() }; }
    let mut s = format!("{}", x.abs());
    if !s.contains('.') && !s.contains('e') { s.push_str(".0"); }
    if x.is_sign_negative() { format!("(-{})", s) } else { s }
}
pub fn str_src(s: &str) -> String {
    let mut o = String::from("\"");
    for c in s.chars() {
        match c { '\0' => o.push_str("\\0"), '"' => o.push_str("\\\""), '\\' => o.push_str("\\\\"), '\n' => o.push_str("\\n"), '\r' => o.push_str("\\r"), c => o.push(c) }
    }
    o.push('"'); o
}
impl A {
    pub fn int(v: i32) -> A { A { v: V::Int(v), reg: false } }
    pub fn src(&self) -> String {
        match (&self.v, self.reg) {
            (V::Int(i), false) => if *i < 0 { format!("-{}", (*i as i64).abs()) } else { format!("{}", i) },
            (V::Int(i), true) => format!("$REG[{}]", i),
            (V::Float(bits), false) => float_src(*bits),
            (V::Float(bits), true) => format!("%REG[{}]", f32::from_bits(*bits) as i32),
            (V::Str(s), _) => str_src(s),
        }
    }
    pub fn coq(&self) -> String {
        let v = match &self.v {
            V::Int(i) => format!("(AInt {})", z(*i as i64)),
            V::Float(bits) => format!("(AFloat {})", bits),
            V::Str(s) => format!("(AStr {})", str_term(s)),
        };
        format!("mkarg {} {}", v, b(self.reg))
    }
}
pub fn args_coq(args: &[A]) -> String { format!("[{}]", args.iter().map(|a| a.coq()).collect::<Vec<_>>().join("; ")) }

// ---------------------------------------------------------------------------------------------
// Shift-JIS as implemented by encoding_rs (through truth::io)

pub fn sjis_encode(s: &str) -> Option<Vec<u8>> {
    let (bytes, _, bad) = truth::io::DEFAULT_ENCODING.encode(s);
    if bad { None } else { Some(bytes.into_owned()) }
}
pub fn sjis_decode(bytes: &[u8]) -> Option<String> {
    let (s, bad) = truth::io::DEFAULT_ENCODING.decode_without_bom_handling(bytes);
    if bad { None } else { Some(s.into_owned()) }
}
pub fn sj_table(strings: &[String]) -> String {
    let mut seen = std::collections::BTreeSet::new();
    let mut out = vec![];
    for s in strings {
        if !seen.insert(s.clone()) { continue; }
        let r = match sjis_encode(s) { Some(bs) => format!("Some {}", bytes_term(&bs)), None => "None".into() };
        out.push(format!("({}, {})", str_term(s), r));
    }
    format!("[{}]", out.join("; "))
}

// ---------------------------------------------------------------------------------------------
// languages

#[derive(Clone, Copy, Debug, PartialEq)]
pub enum Lang { Anm, Msg, Timeline }
impl Lang {
    pub fn has_regs(self) -> bool { self == Lang::Anm }
    pub fn has_arg0(self) -> bool { self == Lang::Timeline }
    pub fn game(self) -> Game { match self { Lang::Anm | Lang::Msg => Game::Th12, Lang::Timeline => Game::Th06 } }
    pub fn name(self) -> &'static str { match self { Lang::Anm => "anm12", Lang::Msg => "msg12", Lang::Timeline => "timeline06" } }
    pub fn mapfile(self, sigs: &[(u16, String)], extra: &str) -> String {
        let (magic, sect) = match self {
            Lang::Anm => ("!anmmap", "!ins_signatures"), Lang::Msg => ("!msgmap", "!ins_signatures"),
            Lang::Timeline => ("!eclmap", "!timeline_ins_signatures"),
        };
        let mut s = format!("{}\n{}\n", magic, sect);
        for (op, t) in sigs { writeln!(s, "{} {}", op, t).unwrap(); }
        s.push_str(extra);
        s
    }
    pub fn source(self, body: &str) -> String {
        match self {
            Lang::Anm => format!("entry {{ path: \"a.png\", has_data: false, img_width: 16, img_height: 16, img_format: 1, sprites: {{}} }}\nscript script0 {{\n{}}}\n", body),
            Lang::Msg => format!("meta {{ table: {{ 0: {{script: \"main\", flags: 256}} }} }}\nscript main {{\n{}}}\n", body),
            Lang::Timeline => format!("script timeline0 {{\n{}}}\n", body),
        }
    }
}

#[derive(Clone, Debug, PartialEq)]
pub struct Obs { pub blob: Vec<u8>, pub mask: u16, pub extra: Option<i16> }
impl Obs {
    pub fn of(r: &RawInstr) -> Obs { Obs { blob: r.args_blob.clone(), mask: r.param_mask, extra: r.extra_arg } }
    pub fn coq(&self) -> String {
        format!("({}, {}, {})", bytes_term(&self.blob), self.mask, match self.extra { Some(x) => format!("Some {}", z(x as i64)), None => "None".into() })
    }
}

/// A compiled file of any of the three languages, so that single instructions can be swapped in for decompilation.
#[derive(Clone)]
pub enum Compiled { Anm(truth::AnmFile), Msg(truth::MsgFile), Ecl(truth::OldeEclFile) }
impl Compiled {
    pub fn instrs(&self) -> Vec<RawInstr> {
        match self {
            Compiled::Anm(f) => f.entries[0].scripts.values().next().map(|s| s.script.instrs.clone()).unwrap_or_default(),
            Compiled::Msg(f) => f.scripts.values().next().map(|s| s.instrs.clone()).unwrap_or_default(),
            Compiled::Ecl(f) => f.timelines.get(0).map(|s| s.instrs.clone()).unwrap_or_default(),
        }
    }
    pub fn with_instrs(&self, instrs: Vec<RawInstr>) -> Compiled {
        let mut c = self.clone();
        match &mut c {
            Compiled::Anm(f) => { f.entries[0].scripts.values_mut().next().unwrap().script.instrs = instrs; },
            Compiled::Msg(f) => { f.scripts.values_mut().next().unwrap().instrs = instrs; },
            Compiled::Ecl(f) => { f.timelines[0].instrs = instrs; },
        }
        c
    }
}

pub const W_UNKNOWN: u32 = 99;
pub const W_BADOFFSET: u32 = 8;
/// warning classes (numbers of Model/Abi.v) found in captured diagnostics
pub fn warning_classes(diag: &str) -> Vec<u32> {
    let mut out = std::collections::BTreeSet::new();
    for line in diag.lines() {
        let l = line.trim_start();
        if !l.starts_with("warning") { continue; }
        let c = if l.contains("non-constant expression in immediate argument") { 1 }
            else if l.contains("non-constant expression in non-parameter") { 2 }
            else if l.contains("unexpected leftover bytes") { 3 }
            else if l.contains("unused mask bits") { 4 }
            else if l.contains("missing null terminator") { 5 }
            else if l.contains("truncated at first null") { 6 }
            else if l.contains("nonzero data found in padding") { 7 }
            else if l.contains("invalid offset in a jump") { W_BADOFFSET }
            else { W_UNKNOWN };
        out.insert(c);
    }
    out.into_iter().collect()
}
pub fn wlist(ws: &[u32]) -> String { format!("[{}]", ws.iter().map(|w| format!("{}%nat", w)).collect::<Vec<_>>().join(";")) }

pub enum Outcome<T> { Ok(T), Err(String), Panic(String) }
impl<T> Outcome<T> {
    pub fn class(&self) -> &'static str { match self { Outcome::Ok(_) => "ok", Outcome::Err(_) => "err", Outcome::Panic(_) => "panic" } }
}

/// mapfile + script text -> compiled file and warnings
pub fn compile(lang: Lang, mapfile: &str, text: &str) -> Outcome<(Compiled, Vec<u32>, String)> {
    let r = catch(|| -> Result<(Compiled, String), String> {
        let mut scope = truth::Builder::new().capture_diagnostics(true).build();
        let mut truth = scope.truth();
        let game = lang.game();
        let res = (|| -> Result<Compiled, truth::ErrorReported> {
            truth.apply_mapfile_str(mapfile, game)?;
            let ast = truth.parse::<ast::ScriptFile>("<input>", text.as_bytes())?.value;
            let mut t = truth.validate_defs()?;
            Ok(match lang {
                Lang::Anm => { let w = t.compile_anm(game, &ast)?; Compiled::Anm(t.finalize_anm(game, w)?) },
                Lang::Msg => Compiled::Msg(t.compile_msg(game, LanguageKey::Msg, &ast)?),
                Lang::Timeline => Compiled::Ecl(t.compile_olde_ecl(game, &ast)?),
            })
        })();
        let diag = truth.get_captured_diagnostics().unwrap_or_default();
        match res { Ok(c) => Ok((c, diag)), Err(_) => Err(diag) }
    });
    match r {
        Ok(Ok((c, diag))) => { let w = warning_classes(&diag); Outcome::Ok((c, w, diag)) },
        Ok(Err(diag)) => Outcome::Err(diag),
        Err(p) => Outcome::Panic(p),
    }
}

/// decompile with all structure recovery off, so every instruction stays `ins_N(...)`
pub fn decompile(lang: Lang, mapfile: &str, file: &Compiled, intrinsics: bool) -> Outcome<(ast::ScriptFile, Vec<u32>, String)> {
    let r = catch(|| -> Result<(ast::ScriptFile, String), String> {
        let mut scope = truth::Builder::new().capture_diagnostics(true).build();
        let mut truth = scope.truth();
        let game = lang.game();
        let opts = truth::DecompileOptions { arguments: true, intrinsics, calls: false, blocks: false, diff_switches: false, show_instr_offsets: false };
        let res = (|| -> Result<ast::ScriptFile, truth::ErrorReported> {
            truth.apply_mapfile_str(mapfile, game)?;
            let mut t = truth.validate_defs()?;
            match file {
                Compiled::Anm(f) => t.decompile_anm(game, f, &opts),
                Compiled::Msg(f) => t.decompile_msg(game, LanguageKey::Msg, f, &opts),
                Compiled::Ecl(f) => t.decompile_olde_ecl(game, f, &opts),
            }
        })();
        let diag = truth.get_captured_diagnostics().unwrap_or_default();
        match res { Ok(c) => Ok((c, diag)), Err(_) => Err(diag) }
    });
    match r {
        Ok(Ok((c, diag))) => { let w = warning_classes(&diag); Outcome::Ok((c, w, diag)) },
        Ok(Err(diag)) => Outcome::Err(diag),
        Err(p) => Outcome::Panic(p),
    }
}

/// parse script text (no mapfile needed: nothing is resolved)
pub fn reparse(text: &str) -> Option<ast::ScriptFile> {
    catch(|| {
        let mut scope = truth::Builder::new().capture_diagnostics(true).build();
        let mut truth = scope.truth();
        truth.parse::<ast::ScriptFile>("<reparse>", text.as_bytes()).ok().map(|f| f.value)
    }).ok().flatten()
}

/// statements of the first script of a decompiled file
pub fn script_stmts(file: &ast::ScriptFile) -> Vec<&ast::Stmt> {
    for item in &file.items {
        if let ast::Item::Script { code, .. } = &item.value { return code.0.iter().map(|s| &s.value).collect(); }
    }
    vec![]
}

/// the arguments of every `ins_N(...)`-style call statement, converted back to values.
/// Err(reason) if an argument has a shape this harness cannot map back to a value.
pub fn call_args(file: &ast::ScriptFile, names: &BTreeMap<String, i32>) -> Result<Vec<(String, Vec<A>)>, String> {
    let mut out = vec![];
    let stmts = script_stmts(file);
    let mut seen_instr = false;
    let mut label_before: BTreeMap<String, bool> = BTreeMap::new();
    for st in &stmts {
        match &st.kind {
            ast::StmtKind::Label(l) => { label_before.insert(l.value.to_string(), !seen_instr); },
            ast::StmtKind::Expr(_) => seen_instr = true,
            _ => {},
        }
    }
    for st in &stmts {
        if let ast::StmtKind::Expr(e) = &st.kind {
            if let ast::Expr::Call(call) = &e.value {
                if !call.pseudos.is_empty() { return Err(format!("pseudo-arguments in decompiled call")); }
                let mut args = vec![];
                for a in &call.args {
                    args.push(match &a.value {
                        ast::Expr::LitInt { value, .. } => A::int(*value),
                        ast::Expr::LitFloat { value } => A { v: V::Float(value.to_bits()), reg: false },
                        ast::Expr::LitString(s) => A { v: V::Str(s.string.clone()), reg: false },
                        ast::Expr::Var(v) => match &v.name {
                            ast::VarName::Reg { reg, .. } => match v.ty_sigil {
                                Some(ast::VarSigil::Float) => A { v: V::Float((reg.0 as f32).to_bits()), reg: true },
                                _ => A { v: V::Int(reg.0), reg: true },
                            },
                            ast::VarName::Normal { ident, .. } => match names.get(ident.as_str()) {
                                Some(v) => A::int(*v),
                                None => return Err(format!("named constant {}", ident.as_str())),
                            },
                        },
                        // source text writes negative literals with a unary minus
                        ast::Expr::UnOp(op, inner) if op.value == ast::UnOpKind::Neg => match &inner.value {
                            ast::Expr::LitInt { value, .. } => A::int(value.wrapping_neg()),
                            ast::Expr::LitFloat { value } => A { v: V::Float((-*value).to_bits()), reg: false },
                            other => return Err(format!("unexpected argument expression -{:?}", other)),
                        },
                        ast::Expr::LabelProperty { label, .. } => match label_before.get(&label.value.to_string()) {
                            // the generators only ever point jumps at offset 0 / time 0 (or at no instruction at all)
                            Some(true) => A::int(0),
                            _ => return Err(format!("label {} is not at the start of the script", label.value)),
                        },
                        other => return Err(format!("unexpected argument expression {:?}", other)),
                    });
                }
                out.push((format!("{}", truth::fmt::stringify(&call.name.value)), args));
            }
        }
    }
    Ok(out)
}

// ---------------------------------------------------------------------------------------------
// running a script of calls: cases for the model and the implementation-level oracle

pub struct Hist(pub BTreeMap<String, u64>);
impl Hist { pub fn bump(&mut self, k: &str) { *self.0.entry(k.to_string()).or_insert(0) += 1; } }

/// Accelerating xor masks in every shape: each of (mask, velocity, acceleration) zero / non-zero in all 8 combinations, the
/// extreme byte 0xFF, velocities and accelerations that wrap around within a few bytes, and plain random triples.
pub fn gen_mask(rng: &mut Rng, h: &mut Hist) -> [u8; 3] {
    let comp = |rng: &mut Rng, nonzero: bool| -> u8 {
        if !nonzero { return 0; }
        match rng.below(6) { 0 => 0xFF, 1 => 1, 2 => 0x80, 3 => *rng.pick(&[0xFEu8, 0x7F, 0xF0, 0x81]), _ => 1 + rng.below(255) as u8 }
    };
    match rng.below(10) {
        0..=1 => { h.bump("mask_shape_000"); [0, 0, 0] },
        2..=7 => {
            let shape = rng.below(8) as u8;     // bit 2: mask, bit 1: velocity, bit 0: acceleration non-zero
            h.bump(&format!("mask_shape_{}{}{}", (shape >> 2) & 1, (shape >> 1) & 1, shape & 1));
            [comp(rng, shape & 4 != 0), comp(rng, shape & 2 != 0), comp(rng, shape & 1 != 0)]
        },
        _ => { h.bump("mask_shape_random"); [rng.below(256) as u8, rng.below(256) as u8, rng.below(256) as u8] },
    }
}

pub fn int_size(c: char) -> (u8, bool) { let (_, s, sg) = INT_CHARS.iter().find(|x| x.0 == c).copied().unwrap(); (s, sg) }

pub fn script_body(calls: &[(usize, Vec<A>)]) -> String {
    let mut s = String::new();
    for (k, args) in calls { s.push_str(&format!("    ins_{}({});\n", 900 + k, args.iter().map(|a| a.src()).collect::<Vec<_>>().join(", "))); }
    s
}
pub fn one_line(s: &str) -> String { s.replace('\n', "\u{23ce}").replace('\t', " ").replace('\r', "\\r") }

pub fn all_strings(calls: &[(usize, Vec<A>)]) -> Vec<String> {
    let mut v = vec![];
    for (_, args) in calls { for a in args { if let V::Str(s) = &a.v { v.push(s.clone()); } } }
    v
}

pub fn names_table() -> BTreeMap<String, i32> {
    let mut m = BTreeMap::new();
    m.insert("script0".to_string(), 0);
    m
}

/// runs a script of calls; prints the KComp case, KDecomp cases for each resulting instruction, and oracle lines
pub fn run_script(lang: Lang, sigs: &[Vec<P>], calls: &[(usize, Vec<A>)], h: &mut Hist, rng: &mut Rng, mutate: bool) {
    let sig_lines: Vec<(u16, String)> = sigs.iter().enumerate().map(|(k, ps)| (900 + k as u16, sig_text(ps))).collect();
    let mapfile = lang.mapfile(&sig_lines, "");
    let text = lang.source(&script_body(calls));
    let input = format!("{}|{}|{}", lang.name(), one_line(&mapfile), one_line(&text));
    let res = compile(lang, &mapfile, &text);
    h.bump(&format!("compile_{}", res.class()));
    let sigs_coq = format!("[{}]", sigs.iter().map(|ps| sig_coq(ps)).collect::<Vec<_>>().join("; "));
    let calls_coq = format!("[{}]", calls.iter().map(|(k, a)| format!("({}%nat, {})", k, args_coq(a))).collect::<Vec<_>>().join("; "));
    let sj = sj_table(&all_strings(calls));
    let obs = match &res {
        Outcome::Ok((c, w, _)) => format!("(IOk ([{}], {}))", c.instrs().iter().map(|r| Obs::of(r).coq()).collect::<Vec<_>>().join("; "), wlist(w)),
        Outcome::Err(_) => "IErr".to_string(),
        Outcome::Panic(_) => "IPanic".to_string(),
    };
    println!("COMP\tKComp {} {} {} {} {} {}\t{}", b(lang.has_regs()), b(lang.has_arg0()), sigs_coq, calls_coq, sj, obs, input);
    match &res {
        Outcome::Panic(p) => println!("ORACLE-FAIL\t{}: panic while compiling\t{}\t{}", panic_class(p), one_line(p), input),
        Outcome::Err(d) => {
            // (O) a call whose arguments have exactly the types of the non-padding parameters is not a type error
            if calls.iter().all(|(k, args)| well_typed(lang, &sigs[*k], args)) && d.contains("type error") && sigs.iter().all(|ps| sig_valid(lang, ps)) {
                println!("ORACLE-FAIL\tcall-typing: well-typed call rejected with a type error\t{}\t{}", one_line(&d.chars().take(300).collect::<String>()), input);
            }
        },
        Outcome::Ok((compiled, warns, _)) => {
            let instrs = compiled.instrs();
            if instrs.len() != calls.len() { println!("ORACLE-FAIL\tshape: number of compiled instructions differs from the number of calls\t{} vs {}\t{}", instrs.len(), calls.len(), input); return; }
            let mut furi_pending = false;   // a furigana line ("|...") was written by an earlier furibug string
            for (idx, raw) in instrs.iter().enumerate() {
                let ps = &sigs[calls[idx].0];
                let want = &calls[idx].1;
                let nonpad: Vec<&P> = ps.iter().filter(|p| !p.is_pad()).collect();
                let furi_in = furi_pending;
                for (p, a) in nonpad.iter().zip(want.iter()) {
                    if let (P::Str { furibug: true, .. }, V::Str(st)) = (p, &a.v) { furi_pending = st.starts_with('|'); }
                }
                // a jump offset that is not an instruction offset: the script cannot be decompiled at all (not this property)
                if nonpad.iter().zip(want.iter()).any(|(p, a)| matches!(p, P::Off) && *a != A::int(0)) { h.bump("decompile_skipped_invalid_jump"); continue; }
                let single = compiled.with_instrs(vec![raw.clone()]);
                let single_map = lang.mapfile(&[(raw.opcode, sig_text(ps))], "");
                let dres = decompile(lang, &single_map, &single, false);
                emit_decomp(lang, ps, raw, &dres, &input, h);
                // (O) compile -> decompile -> compare argument by argument
                let unfit = nonpad.iter().zip(want.iter()).any(|(p, a)| !int_fits(p, a));
                let has_nul = want.iter().any(|a| matches!(&a.v, V::Str(st) if st.contains('\0')));
                let nulless_furi = furi_in && nonpad.iter().any(|p| matches!(p, P::Str { sz: SSize::Fixed(_, true), furibug: true, .. }));
                let diagnosed = !warns.is_empty();
                let got: Option<Vec<A>> = match &dres {
                    Outcome::Ok((file, _, _)) => match call_args(file, &names_table()) { Ok(cs) if cs.len() == 1 => Some(cs[0].1.clone()), _ => None },
                    _ => None,
                };
                let changed = match (&dres, &got) { (Outcome::Ok(_), Some(g)) => g != want, (Outcome::Ok(_), None) => false, _ => true };
                // (O) the text side: print the decompiled script, parse it again: same arguments
                if let (Outcome::Ok((file, _, _)), Some(g)) = (&dres, &got) {
                    let text2 = truth::fmt::stringify(file);
                    match reparse(&text2) {
                        Some(file2) => match call_args(&file2, &names_table()) {
                            Ok(cs2) if cs2.len() == 1 && &cs2[0].1 == g => {},
                            Ok(cs2) => println!("ORACLE-FAIL\ttext: the printed decompiled script parses back to different arguments\tdecompiled {:?} reparsed {:?} text {}\t{}", g, cs2.get(0).map(|c| &c.1), one_line(&text2), input),
                            Err(_) => {},
                        },
                        None => println!("ORACLE-FAIL\ttext: the printed decompiled script does not parse\t{}\t{}", one_line(&text2), input),
                    }
                }
                let detail = format!("wrote {:?} read {} signature {}", want, match (&dres, &got) { (_, Some(g)) => format!("{:?}", g), (Outcome::Err(d), _) => format!("error {}", one_line(&d.chars().take(200).collect::<String>())), (Outcome::Panic(p), _) => format!("panic {}", one_line(p)), _ => "?".into() }, sig_text(ps));
                if let Outcome::Panic(p) = &dres { println!("ORACLE-FAIL\t{}: panic while decompiling what was just compiled\t{}\t{}", panic_class(p), one_line(p), input); }
                else if changed && !diagnosed && !has_nul {
                    let reg_beyond_mask = want.iter().enumerate().any(|(i, a)| a.reg && i >= 16);
                    if reg_beyond_mask && !unfit { println!("ORACLE-FAIL\tmask-overflow: a register argument beyond the 16th parameter was stored as an immediate without a diagnostic\t{}\t{}", detail, input); }
                    else if unfit { println!("ORACLE-FAIL\tnarrowing: an integer argument that does not fit its field was stored truncated without a diagnostic\t{}\t{}", detail, input); }
                    else if nulless_furi { println!("ORACLE-FAIL\tnulless-furibug: a nulless furibug string after a furigana line does not read back\t{}\t{}", detail, input); }
                    else { println!("ORACLE-FAIL\troundtrip: arguments changed by compile+decompile without a diagnostic\t{}\t{}", detail, input); }
                } else if !changed && !diagnosed && !has_nul && !unfit && !nulless_furi
                          && matches!(&dres, Outcome::Ok((_, dw, _)) if dw.iter().any(|w| *w != W_BADOFFSET)) {
                    // the arguments came back, but the decoder complained about what the encoder had just written
                    if let Outcome::Ok((_, dw, d)) = &dres {
                        println!("ORACLE-FAIL\troundtrip-warning: decompiling what was just compiled gives warnings {:?}\t{} | {}\t{}", dw, detail, one_line(&d.chars().take(200).collect::<String>()), input);
                    }
                } else if unfit && !diagnosed && !changed && got.is_some() {
                    // an out-of-range value that nevertheless reads back identically (e.g. -1 in a 4-byte unsigned field) is fine
                    h.bump("unfit_but_roundtrips");
                }
                // decoder on damaged instructions: truncated / extended blob, stray mask bits, nonzero padding
                if mutate && rng.chance(1, 2) && !ps.iter().any(|p| matches!(p, P::Off)) {
                    let mut r2 = raw.clone();
                    match rng.below(5) {
                        0 => { let k = rng.below(r2.args_blob.len() as u64 + 1) as usize; r2.args_blob.truncate(k); h.bump("damage_truncate"); },
                        1 => { for _ in 0..(1 + rng.below(4)) { r2.args_blob.push(rng.below(3) as u8); } h.bump("damage_extend"); },
                        2 => {
                            // (not on float parameters: a random float with the register bit set is "a register" only if it is an integer,
                            //  and then the register id does not determine the bits any more)
                            let cand: Vec<u32> = (0..16u32).filter(|&i| (i as usize) >= nonpad.len() || !matches!(nonpad[i as usize], P::Float { .. })).collect();
                            if lang.has_regs() && !cand.is_empty() { r2.param_mask ^= 1 << *rng.pick(&cand); }
                            h.bump("damage_mask");
                        },
                        3 => { if !r2.args_blob.is_empty() { let k = rng.below(r2.args_blob.len() as u64) as usize; r2.args_blob[k] ^= 1 << rng.below(8); } h.bump("damage_bitflip"); },
                        _ => { if !r2.args_blob.is_empty() { let k = rng.below(r2.args_blob.len() as u64) as usize; r2.args_blob[k] = 0; } h.bump("damage_zero_byte"); },
                    }
                    let damaged = compiled.with_instrs(vec![r2.clone()]);
                    let dres2 = decompile(lang, &single_map, &damaged, false);
                    if let Outcome::Panic(p) = &dres2 { println!("ORACLE-FAIL\t{}: panic while decompiling\t{}\tblob={:?} mask={} sig={} lang={}", panic_class(p), one_line(p), r2.args_blob, r2.param_mask, sig_text(ps), lang.name()); }
                    emit_decomp(lang, ps, &r2, &dres2, &input, h);
                }
            }
        },
    }
}

pub fn panic_class(p: &str) -> &'static str {
    if p.contains("remainder with a divisor of zero") { "bs-zero" }
    else if p.starts_with("SimpleArg {") { "call-typing" }
    else if p.contains("index out of bounds") { "intrinsic-padding" }
    else { "panic" }
}

/// does the value fit the field the parameter declares (the harness' own notion, from the format character)
pub fn int_fits(p: &P, a: &A) -> bool {
    match (p, &a.v) {
        (P::Int { arg0: true, .. }, V::Int(v)) => -32768 <= *v && *v <= 32767,
        (P::Int { c, .. }, V::Int(v)) => {
            let (size, signed) = int_size(*c);
            let v = *v as i64;
            match (size, signed) { (1, true) => -128 <= v && v <= 127, (1, false) => 0 <= v && v <= 255, (2, true) => -32768 <= v && v <= 32767, (2, false) => 0 <= v && v <= 65535, _ => true }
        },
        _ => true,
    }
}
pub fn well_typed(lang: Lang, ps: &[P], args: &[A]) -> bool {
    let nonpad: Vec<&P> = ps.iter().filter(|p| !p.is_pad()).collect();
    nonpad.len() == args.len() && nonpad.iter().zip(args).all(|(p, a)| match (p, &a.v) {
        (P::Int { arg0, .. }, V::Int(_)) => !(*arg0 && a.reg),
        (P::Off, V::Int(_)) | (P::Time, V::Int(_)) => !a.reg,
        (P::Float { .. }, V::Float(_)) => true,
        (P::Str { .. }, V::Str(_)) => !a.reg,
        _ => false,
    }) && (lang.has_regs() || args.iter().all(|a| !a.reg))
}
/// the harness' own reading of abi.rs validate + validate_against_language
pub fn sig_valid(lang: Lang, ps: &[P]) -> bool {
    let o = ps.iter().filter(|p| matches!(p, P::Off)).count();
    let t = ps.iter().filter(|p| matches!(p, P::Time)).count();
    let arg0_ok = ps.iter().enumerate().all(|(i, p)| match p { P::Int { arg0: true, c, .. } => i == 0 && lang.has_arg0() && int_size(*c).0 <= 2, _ => true });
    let block_ok = ps.iter().enumerate().all(|(i, p)| match p { P::Str { sz: SSize::Block(_), .. } => i + 1 == ps.len(), _ => true });
    o <= 1 && t <= 1 && !(t == 1 && o == 0) && arg0_ok && block_ok
}

pub fn emit_decomp(lang: Lang, ps: &[P], raw: &truth::llir::RawInstr, dres: &Outcome<(truth::ast::ScriptFile, Vec<u32>, String)>, input: &str, h: &mut Hist) {
    h.bump(&format!("decompile_{}", dres.class()));
    let table = decode_table(ps, raw);
    let obs = match dres {
        Outcome::Ok((file, w, _)) => match call_args(file, &names_table()) {
            // a float slot with the register bit set whose value is an integer beyond 2^24: the register id printed by the
            // decompiler (`x as i32`, saturating) does not determine the bits any more; not compared
            Ok(cs) if cs.len() == 1 && cs[0].1.iter().any(|a| a.reg && matches!(a.v, V::Float(b) if f32::from_bits(b).abs() >= 16777216.0)) => { h.bump("decomp_skipped_large_float_reg"); return; },
            Ok(cs) if cs.len() == 1 => {
                let w2: Vec<u32> = w.iter().copied().filter(|x| *x != W_BADOFFSET).collect();
                format!("(IOk ({}, {}))", args_coq(&cs[0].1), wlist(&w2))
            },
            Ok(_) => { h.bump("decomp_skipped_shape"); return; },
            Err(why) => { h.bump(&format!("decomp_skipped:{}", why.split(' ').next().unwrap_or(""))); return; },
        },
        Outcome::Err(_) => "IErr".to_string(),
        Outcome::Panic(_) => "IPanic".to_string(),
    };
    println!("DECOMP\tKDecomp {} {} {} {} {} {} {}\t{} >> blob={:?} mask={} extra={:?} sig={}", b(lang.has_arg0()), sig_coq(ps), bytes_term(&raw.args_blob), raw.param_mask,
             match raw.extra_arg { Some(x) => format!("(Some {})", z(x as i64)), None => "None".into() }, table, obs, input, raw.args_blob, raw.param_mask, raw.extra_arg, sig_text(ps));
}

/// Shift-JIS decoding table for the model: for each string parameter, the window of the blob it occupies (computed from the
/// harness' own table of field sizes), unmasked and trimmed at the first NUL, with what encoding_rs decodes it to.
pub fn decode_table(ps: &[P], raw: &truth::llir::RawInstr) -> String {
    let mut seen = std::collections::BTreeSet::new();
    let mut out = vec![];
    let blob = &raw.args_blob;
    let mut off = 0usize;
    for p in ps {
        match p {
            P::Int { c, arg0, .. } => if !*arg0 { off += int_size(*c).0 as usize; },
            P::Float { .. } | P::Off | P::Time => off += 4,
            P::Pad(c) => off += if *c == '_' { 4 } else { 1 },
            P::Str { sz, mask, .. } => {
                let (start, len) = match sz {
                    SSize::Block(_) => (off, blob.len().saturating_sub(off)),
                    SSize::Fixed(len, _) => (off, *len as usize),
                    SSize::Pascal(_) => {
                        if off + 4 > blob.len() { break; }
                        (off + 4, u32::from_le_bytes([blob[off], blob[off + 1], blob[off + 2], blob[off + 3]]) as usize)
                    },
                };
                if start > blob.len() || len > blob.len() - start { break; }
                let mut m = mask[0]; let mut v = mask[1]; let a = mask[2];
                let mut un = vec![];
                for &x in &blob[start..start + len] { un.push(x ^ m); m = m.wrapping_add(v); v = v.wrapping_add(a); }
                let t: Vec<u8> = match un.iter().position(|&x| x == 0) { Some(i) => un[..i].to_vec(), None => un };
                if seen.insert(t.clone()) {
                    let r = match sjis_decode(&t) { Some(s) => format!("Some {}", str_term(&s)), None => "None".into() };
                    out.push(format!("({}, {})", bytes_term(&t), r));
                }
                off = start + len;
            },
        }
    }
    format!("[{}]", out.join("; "))
}

