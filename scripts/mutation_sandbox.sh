#!/bin/bash
# usage: scripts/mutation_sandbox.sh create <name> | remove <name>
# Creates an isolated copy for trying property-breaking edits without touching /repo or /verif:
#   /tmp/mut-<name>/repo   git worktree of /repo at HEAD (edit / `git apply` patches here)
#   /tmp/mut-<name>/verif  copy of /verif (incl. compiled .vo, excl. harness/target) whose harness depends on that worktree
# Then:  cd /tmp/mut-<name>/verif && VERIF_REPO=/tmp/mut-<name>/repo ./check Cxx --tier quick
# (first harness build there takes ~70 s). Always `remove` when done (disk space).
set -e
cmd=$1; name=$2
[ -n "$name" ] || { echo "usage: $0 create|remove <name>"; exit 2; }
D=/tmp/mut-$name
case "$cmd" in
  create)
    mkdir -p "$D"
    git -C /repo worktree add --detach "$D/repo" HEAD >/dev/null
    rsync -a --exclude 'harness/target' --exclude '.git' --exclude 'work' /verif/ "$D/verif/"
    sed -i "s#path = \"/repo\"#path = \"$D/repo\"#" "$D/verif/harness/Cargo.toml"
    mkdir -p "$D/verif/work"
    echo "sandbox ready: cd $D/verif && VERIF_REPO=$D/repo ./check Cxx"
    ;;
  remove)
    git -C /repo worktree remove --force "$D/repo" 2>/dev/null || true
    rm -rf "$D"
    git -C /repo worktree prune
    ;;
  *) echo "usage: $0 create|remove <name>"; exit 2;;
esac
