#!/bin/bash
# usage: scripts/run_seeds.sh <sandbox-name> <ID-k> [<ID-k> ...]
# Runs each seeded change (seeded/<ID-k>/patch.diff) through ./check <ID> --tier quick in ONE mutation sandbox
# (created if missing, harness built once on the clean tree first), logs to work/seedruns/<ID-k>.log, and finally
# runs the clean tree again for every property touched.  The sandbox is removed at the end.
name=$1; shift
D=/tmp/mut-$name
[ -d $D ] || /verif/scripts/mutation_sandbox.sh create $name >/dev/null 2>&1
cd $D/verif
(cd harness && CARGO_NET_OFFLINE=true cargo build --offline --bins 2>&1 | tail -1)
props=""
for pk in "$@"; do
  # "Cxx:Cyy-k" runs check Cxx on the seeded change Cyy-k (cross-property detection)
  if [[ "$pk" == *:* ]]; then p=${pk%%:*}; pk=${pk#*:}; else p=${pk%%-*}; fi; props="$props $p"
  (cd $D/repo && git checkout -q -- . && git clean -fdq tests 2>/dev/null; git apply /verif/seeded/$pk/patch.diff) || { echo "== $pk apply failed"; continue; }
  echo "== $p on $pk"
  VERIF_REPO=$D/repo ./check $p --tier quick > /verif/work/seedruns/$p-on-$pk.log 2>&1
  grep -E "VIOLATION|^\[C" /verif/work/seedruns/$p-on-$pk.log | cut -c1-170 | head -4
done
(cd $D/repo && git checkout -q -- .)
for p in $(echo $props | tr ' ' '\n' | sort -u); do
  echo "== clean $p"; VERIF_REPO=$D/repo ./check $p --tier quick 2>&1 | grep -E "VIOLATION|^\[C" | cut -c1-170 | head -3
done
cd /verif; scripts/mutation_sandbox.sh remove $name
