#!/bin/bash
# MANIFEST.setup_cmd: build the framework from files on disk only (offline).
set -e
cd "$(dirname "$0")/.."
export CARGO_NET_OFFLINE=true
mkdir -p work evidence replays
# harness (path dependency on /repo)
[ -f harness/Cargo.lock ] || cp /repo/Cargo.lock harness/Cargo.lock
(cd harness && cargo build --offline --bins 2>&1 | tail -3)
# generated tables + the whole Coq development
python3 - <<'PY'
import sys, os
sys.path.insert(0, 'lib')
import vlib
print(vlib.ensure_all_gen())
vlib.coq_makefile()
PY
(cd coq && timeout 3000 make -j16 2>&1 | grep -v "^Axioms\|^Classical\|^Functional\|^  \|^    \|Closed under" | tail -5)
echo setup done
