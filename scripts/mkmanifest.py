#!/usr/bin/env python3
"""Regenerate MANIFEST.json from checks/<cxx>.meta.json (one per claimed property)."""
import json, os, glob
V = os.path.dirname(os.path.dirname(os.path.abspath(__file__)))
props = [json.loads(l) for l in open(os.path.join(V, 'properties.jsonl'))]
claimed = {}
# only properties listed in checks/READY (one id per line) are claimed: their check has been run green
# on the unchanged tree and mutation-tested by the main session
ready = set(l.strip() for l in open(os.path.join(V, 'checks', 'READY')) if l.strip() and not l.startswith('#'))
for f in sorted(glob.glob(os.path.join(V, 'checks', 'c*.meta.json'))):
    m = json.load(open(f))
    if m['property_id'] in ready:
        claimed[m['property_id']] = m
try:
    na_reasons = json.load(open(os.path.join(V, 'checks', 'not_applicable.json')))
except OSError:
    na_reasons = {}
checks = []
for p in props:
    pid = p['id']
    if pid not in claimed: continue
    c = claimed[pid]
    checks.append({
        "property_id": pid,
        "quick_cmd": "./check %s --tier quick" % pid,
        "thorough_cmd": "./check %s --tier thorough" % pid,
        "evidence_file": "/verif/evidence/%s.json" % pid,
        "replay_cmd_template": "./check %s --replay {path}" % pid,
        "engine": "coq-model+correspondence",
        "level_claimed": {"category": "proof", "text": c['level_text'], "design_ref": c.get('design_ref', "DESIGN.md section 5, %s" % pid)},
        "level_note": c['level_note'],
        "technique": c['technique'],
    })
na = [{"property_id": p['id'], "reason": na_reasons.get(p['id'], "not claimed yet: its check is still being built (DESIGN.md section 8 build order); no other technique is substituted")}
      for p in props if p['id'] not in claimed]
m = {
    "version": 1,
    "setup_cmd": "bash scripts/setup.sh",
    "hooks": {"guard": "truth_verif", "enable": "RUSTFLAGS='--cfg truth_verif' (no hook commits exist: every check uses truth's public API, so checks build /repo unmodified)",
              "baseline_off_cmd": "bash /verif/scripts/baseline.sh", "source_commits": [], "add_only": True},
    "engines": [{"name": "coq-model+correspondence", "path": "/verif/check", "serves_properties": sorted(claimed),
                 "kind_free_text": "Coq 8.16 development (coq/theories: Base, Gen (regenerated from /repo/src every run), Model, Spec, Proofs, Props, Corr) + Rust differential harness (harness/) + python driver (lib/vlib.py, checks/)"}],
    "checks": checks,
    "not_applicable": na,
    "notes": "See DESIGN.md. fix: commits in /repo are listed in known_findings.json.",
}
json.dump(m, open(os.path.join(V, 'MANIFEST.json'), 'w'), indent=1)
print('claimed:', sorted(claimed), 'unclaimed:', [x['property_id'] for x in na])
