#!/bin/bash
# usage: scripts/run_thorough.sh Cxx [Cyy ...]  -- runs the thorough tier of each property in turn, summary to work/thorough.log
cd /verif
for c in "$@"; do
  s=$(date +%s)
  out=$(./check $c --tier thorough 2>&1 | grep -E "VIOLATION|^\[C" | cut -c1-200 | head -8)
  echo "$(date -u +%H:%M) $c $(( $(date +%s) - s ))s :: $out" >> work/thorough.log
done
