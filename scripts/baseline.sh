#!/bin/bash
# Runs the repository's pinned test suite with the hook guard OFF (no RUSTFLAGS cfg) and compares
# the set of passing tests with /root/.vp/BASELINE.json (stable_pass). Exit 0 iff every
# baseline-stable test still passes.
set -u
cd "${BASELINE_REPO:-/repo}"
unset RUSTFLAGS
export CARGO_NET_OFFLINE=true RUST_BACKTRACE=0
OUT=${1:-/verif/work/baseline}
mkdir -p "$OUT"
if cargo nextest --version >/dev/null 2>&1 && [ -f /w/lib/nextest.toml ]; then
  cargo nextest run --workspace --no-fail-fast --tool-config-file pb:/w/lib/nextest.toml --profile pb --test-threads 8 --offline > "$OUT/log.txt" 2>&1
  JUNIT="${BASELINE_REPO:-/repo}/target/nextest/pb/junit.xml"
  python3 - "$JUNIT" <<'PY'
import sys, json, xml.etree.ElementTree as ET
root = ET.parse(sys.argv[1]).getroot()
passed, failed = set(), set()
for tc in root.iter("testcase"):
    tid = (tc.get("classname") or "") + "::" + (tc.get("name") or "")
    if tc.find("failure") is not None or tc.find("error") is not None: failed.add(tid)
    elif tc.find("skipped") is not None: pass
    else: passed.add(tid)
base = set(json.load(open("/root/.vp/BASELINE.json"))["stable_pass"])
missing = sorted(base - passed)
print("passed=%d failed=%d baseline=%d baseline_missing=%d" % (len(passed), len(failed), len(base), len(missing)))
for m in missing[:50]: print("  MISSING", m)
sys.exit(1 if missing else 0)
PY
else
  cargo test --workspace --no-fail-fast --offline > "$OUT/log.txt" 2>&1
  python3 - "$OUT/log.txt" <<'PY'
import sys, re
ok = sum(1 for l in open(sys.argv[1], errors="replace") if re.match(r"^test .* \.\.\. ok\s*$", l))
print("passed=%d (cargo test fallback; no per-test comparison)" % ok)
sys.exit(0 if ok >= 492 else 1)
PY
fi
